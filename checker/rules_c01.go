package main

import (
	"fmt"
	"go/ast"
	"go/types"
)

func init() { register("C01", checkC01) }

// labelRun is the labeler shared by the run-phase rules.
func (a *Anchors) labelRun(info *types.Info) Labeler {
	return func(call *ast.CallExpr, obj types.Object) string { return a.labelObj(obj) }
}

// labelObj names the callee objects the run-phase rules care about.
func (a *Anchors) labelObj(obj types.Object) string {
	{
		if _, isVar := obj.(*types.Var); isVar {
			return ""
		}
		switch {
		case obj == nil:
			return ""
		case a.is(obj, a.DepRunner):
			return "deps"
		case a.ShellExec != nil && a.ShellExec != a.CmdRunner && a.is(obj, a.ShellExec):
			return "runcommand" // the helper the command runner hands the shell execution to stands for the RunCommand call in its callers
		case a.IsCmdEvent(obj):
			return "cmd"
		case a.is(obj, a.Preconditions):
			return "preconditions"
		case a.is(obj, a.StatusOnError):
			return "rollback"
		case a.is(obj, a.RunTask):
			return "runtask"
		case a.is(obj, a.Mkdir), isFunc(obj, "os", "", "MkdirAll"):
			return "mkdir" // the task-directory helper, or the directory creation written in place

		case a.is(obj, a.Dedup):
			return "dedup"
		case a.is(obj, a.Acquire):
			return "acquire"
		case a.is(obj, a.Release):
			return "release"
		case a.is(obj, a.RequiredVars):
			return "required"
		case a.is(obj, a.AllowedValues):
			return "allowed"
		case a.is(obj, a.PlatformTest):
			return "platform"
		case a.isUpToDateCallee(obj):
			return "uptodate"
		case isFunc(obj, PkgLogger, "Logger", "Prompt"):
			return "prompt"
		case isFunc(obj, "golang.org/x/sync/errgroup", "Group", "Wait"):
			return "wait"
		case isFunc(obj, "golang.org/x/sync/errgroup", "Group", "Go"):
			return "go"
		case isFunc(obj, "mvdan.cc/sh/v3/interp", "", "IsExitStatus"):
			return "isexit"
		case obj == a.RunCommandObj:
			return "runcommand"
		}
		return ""
	}
}

func checkC01(c *Check, a *Anchors) {
	c.NotDecided = []string{
		"that a dependency's shell command has really finished when execext.RunCommand returns (background processes)",
		"scheduler fairness",
	}
	c01DepBeforeCmd(c, a)
	c01DepsJoined(c, a)
	c01DepErrorKept(c, a)
	sharedWait(c, a)
	c04RecordAfterSuccess(c, a)               // a fingerprint recorded before the commands lets a second, concurrent reference of the dependency return "up to date" while the first is still running its commands
	c06HashSeesInputs(c, a)                   // a dependency call that is deduplicated against a call with other variables never runs
	c06OnceKey(c, a)                          // two distinct run: once dependencies must not share an execution key (one of them would never run)
	namespaceAlwaysPrepended(c, a)            // a dependency of an included task that keeps its un-namespaced name is bound to a task of another file: the listed dependency never runs
	freshElements(c, a, "dep-elements-fresh") // a rendered dependency written back into the shared definition freezes the first call's name and variables: a later call of the task waits for the wrong dependency and starts its commands although the one listed for it never ran
}

// rule 1: every command event of the task body is preceded by the dependency runner on its nil edge.
func c01DepBeforeCmd(c *Check, a *Anchors) {
	c.Rule("dep-before-cmd", "on every path of the task body, each event that reaches the command runner (call or defer) is preceded by the dependency-runner call, on the err == nil edge of that call")
	body := a.BodyClosure
	c.Fn(body)
	f := NewFlow(c.P, body, a.labelRun(body.Info()))
	f.Run()
	n := 0
	ord := map[string]int{}
	check := func(node ast.Node, callee types.Object, kind string) {
		st := f.At[node]
		n++
		key := ordinal(ord, kind+" "+calleeName(callee))
		c.Decide(st.Has("nil:deps"), "dep-before-cmd", key+"@"+fnDisplay(body), node.Pos(),
			"facts at the event include nil:deps (dependency runner returned nil on every path here)",
			fmt.Sprintf("a command event is reachable without the dependency runner having returned nil on every path; must-facts here: %s", st))
	}
	for _, part := range a.bodyParts() {
		inspectBody(part.Body, func(nd ast.Node) bool {
			switch x := nd.(type) {
			case *ast.DeferStmt:
				if a.IsCmdEvent(callee(body.Info(), x.Call)) {
					check(x, callee(body.Info(), x.Call), "defer")
				}
				return false
			case *ast.GoStmt:
				if a.IsCmdEvent(callee(body.Info(), x.Call)) {
					check(x, callee(body.Info(), x.Call), "go")
				}
			case *ast.CallExpr:
				if a.IsCmdEvent(callee(body.Info(), x)) {
					check(x, callee(body.Info(), x), "call")
				}
			}
			return true
		})
	}
	c.Sites += n
	c.Floor("dep-before-cmd", n, 2)
	// the dependency runner must actually be invoked by the body
	found := false
	for _, l := range f.Labels { // includes the calls of package helpers the flow analysed as part of the body
		if l == "deps" {
			found = true
		}
	}
	if !found {
		c.Bad("dep-before-cmd", "deps-call@"+fnDisplay(body), body.Body.Pos(), "the task body never calls the dependency runner")
	}
}

// rule 2: the dependency runner starts every dep in one errgroup and returns Wait's result.
func c01DepsJoined(c *Check, a *Anchors) {
	c.Rule("deps-joined", "the dependency runner creates one errgroup with WithContext, reaches group.Go for every element of t.Deps (no conditional skip), passes the group's context to RunTask, spawns nothing outside the group, and every return is the value of group.Wait()")
	fb := a.DepRunner
	c.Fn(fb)
	info := fb.Info()
	name := fnDisplay(fb)
	// the group
	var groupVar, ctxVar *types.Var
	var withCtx *ast.CallExpr
	inspectBody(fb.Body, func(n ast.Node) bool {
		if as, ok := n.(*ast.AssignStmt); ok && len(as.Rhs) == 1 {
			if call, ok := ast.Unparen(as.Rhs[0]).(*ast.CallExpr); ok && isFunc(callee(info, call), "golang.org/x/sync/errgroup", "", "WithContext") && len(as.Lhs) == 2 {
				groupVar, ctxVar, withCtx = varOf(info, as.Lhs[0]), varOf(info, as.Lhs[1]), call
			}
		}
		return true
	})
	if groupVar == nil {
		c.Bad("deps-joined", "group@"+name, fb.Body.Pos(), "the dependency runner does not create its group with errgroup.WithContext (no sibling cancellation / join)")
		return
	}
	c.OK("deps-joined", "group@"+name, withCtx.Pos(), "group created by errgroup.WithContext")
	// the loop over deps
	var loop *ast.RangeStmt
	inspectBody(fb.Body, func(n ast.Node) bool {
		if r, ok := n.(*ast.RangeStmt); ok {
			if tv, ok := info.Types[r.X]; ok && sliceOfPtrTo(tv.Type, PkgAst, "Dep") {
				loop = r
			}
		}
		return true
	})
	if loop == nil {
		c.Errorf("deps-joined: loop over []*ast.Dep not found in %s", name)
		return
	}
	// spawn sites
	nGo := 0
	inspectBody(fb.Body, func(n ast.Node) bool {
		switch x := n.(type) {
		case *ast.GoStmt:
			c.Bad("deps-joined", "go-stmt@"+name, x.Pos(), "a goroutine is started outside the errgroup: its completion and error are not joined")
		case *ast.CallExpr:
			if isFunc(callee(info, x), "golang.org/x/sync/errgroup", "Group", "Go") {
				nGo++
				sel, _ := ast.Unparen(x.Fun).(*ast.SelectorExpr)
				sameGroup := sel != nil && varOf(info, sel.X) == groupVar
				inLoop := within(x, loop.Body)
				uncond := inLoop && unconditionalIn(loop.Body.List, x)
				c.Decide(sameGroup && uncond, "deps-joined", "spawn@"+name, x.Pos(),
					"group.Go on the WithContext group, reached on every iteration of the loop over t.Deps",
					fmt.Sprintf("group.Go is not reached for every dependency (same group: %v, inside the deps loop: %v, unconditional in the loop body: %v)", sameGroup, inLoop, uncond))
				// the spawned function must call RunTask with the group's context: a literal here, or the function a package
				// helper returns (g.Go(e.depRunner(ctx, d))), possibly running the dependency through a further helper
				if len(x.Args) == 1 {
					okCtx := false
					switch sp := ast.Unparen(x.Args[0]).(type) {
					case *ast.FuncLit:
						lit := c.P.LitBody(sp)
						c.Fn(lit)
						okCtx = a.ctxReachesRunTask(c.P, lit, ctxVar, 2)
					case *ast.SelectorExpr:
						// a method value of a struct that carries the executor, the context and the dependency
						if h, fields := a.methodValueSpawn(c.P, fb, sp); h != nil {
							c.Fn(h)
							for name, val := range fields {
								if ctxVar != nil && varOf(info, val) == ctxVar && a.ctxReachesRunTaskP(c.P, h, recvFieldIs(h, name), 2) {
									okCtx = true
								}
							}
						}
					case *ast.CallExpr:
						if hfn, ok := callee(info, sp).(*types.Func); ok {
							if h := c.P.DeclOf(hfn); h != nil && h.Pkg.PkgPath == PkgTask {
								c.Fn(h)
								i := 0
								for _, fld := range h.Type.Params.List {
									for _, id := range fld.Names {
										if i < len(sp.Args) && varOf(info, sp.Args[i]) == ctxVar && ctxVar != nil {
											if pv, ok := h.Info().Defs[id].(*types.Var); ok && a.ctxReachesRunTask(c.P, h, pv, 2) {
												okCtx = true
											}
										}
										i++
									}
								}
							}
						}
					}
					c.Decide(okCtx, "deps-joined", "ctx@"+name+"$go", x.Args[0].Pos(),
						"the spawned function calls RunTask with the context returned by errgroup.WithContext",
						"the spawned function does not run the dependency (RunTask) under the group's context: a failing sibling no longer cancels it")
				}
			}
		}
		return true
	})
	if nGo == 0 {
		c.Bad("deps-joined", "spawn@"+name, loop.Pos(), "no group.Go call: dependencies are not started through the errgroup")
	}
	// returns
	f := NewFlow(c.P, fb, a.labelRun(info))
	f.Run()
	for i, r := range f.Returns {
		res := errResult(r)
		key := fmt.Sprintf("return#%d@%s", i+1, name)
		st := f.At[r]
		ok, how := false, ""
		if res != nil {
			if call, isCall := ast.Unparen(res).(*ast.CallExpr); isCall && f.Labels[call] == "wait" {
				sel, _ := ast.Unparen(call.Fun).(*ast.SelectorExpr)
				ok, how = sel != nil && varOf(info, sel.X) == groupVar, "returns group.Wait() directly"
			} else if v := varOf(info, res); v != nil && st.Has(defPrefix(v)+"wait") {
				ok, how = true, "returns the variable holding group.Wait()'s result"
			} else if isNilLit(info, res) && st.Has("nil:wait") {
				ok, how = true, "returns nil on the nil edge of group.Wait()"
			} else if r.Pos() < loop.Pos() && !isNilLit(info, res) {
				ok, how = true, "early error return before any dependency was started"
			}
		}
		c.Decide(ok, "deps-joined", key, r.Pos(), how, "this return does not yield the joined result of group.Wait(): dependencies may still be running, or their failure is dropped, when the commands start")
	}
	if f.Exit != nil {
		c.Bad("deps-joined", "fallthrough@"+name, fb.Body.End(), "the dependency runner can end without returning group.Wait()")
	}
}

// rule 3: the goroutine of a dependency returns RunTask's error.
func c01DepErrorKept(c *Check, a *Anchors) {
	c.Rule("dep-error-kept", "each closure handed to group.Go calls RunTask on every path and never returns nil when RunTask's error is non-nil")
	fb := a.DepRunner
	n := 0
	// the goroutine functions: literals of the dependency runner, and literals of the package helpers it calls (a helper
	// that returns the function to spawn); a call to a helper that returns RunTask's result on every path counts as RunTask
	isRun := func(info *types.Info, call *ast.CallExpr) bool {
		fn, _ := callee(info, call).(*types.Func)
		if fn == nil {
			return false
		}
		if a.is(fn, a.RunTask) {
			return true
		}
		return a.runTaskWrapper(c.P, c.P.DeclOf(fn), 2)
	}
	lits := append([]*FuncBody{}, fb.Lits()...)
	for _, call := range callsIn(fb, true) {
		if fn, ok := callee(fb.Info(), call).(*types.Func); ok {
			if h := c.P.DeclOf(fn); h != nil && h != fb && h != a.RunTask && h.Pkg.PkgPath == PkgTask && !a.runTaskWrapper(c.P, h, 2) {
				lits = append(lits, h.Lits()...)
			}
		}
	}
	for _, call := range callsIn(fb, true) {
		if isFunc(callee(fb.Info(), call), "golang.org/x/sync/errgroup", "Group", "Go") && len(call.Args) == 1 {
			if h, _ := a.methodValueSpawn(c.P, fb, call.Args[0]); h != nil {
				lits = append(lits, h) // the spawned function is a method value
			}
		}
	}
	for _, lit := range lits {
		usesRun := false
		for _, call := range callsIn(lit, false) {
			if isRun(lit.Info(), call) {
				usesRun = true
			}
		}
		if !usesRun {
			continue
		}
		c.Fn(lit)
		n++
		base := a.labelRun(lit.Info())
		linfo := lit.Info()
		f := NewFlow(c.P, lit, func(call *ast.CallExpr, obj types.Object) string {
			if isRun(linfo, call) {
				return "runtask"
			}
			return base(call, obj)
		})
		f.Run()
		for i, r := range f.Returns {
			res := errResult(r)
			st := f.At[r]
			key := fmt.Sprintf("return#%d@%s", i+1, fnDisplay(lit))
			ok, how := false, ""
			switch {
			case res == nil:
			case isNilLit(lit.Info(), res):
				ok, how = st.Has("nil:runtask"), "returns nil only on the nil edge of RunTask's error"
			default:
				if call, isCall := ast.Unparen(res).(*ast.CallExpr); isCall && f.Labels[call] == "runtask" {
					ok, how = true, "returns RunTask's result directly"
				} else {
					ok, how = st.Has("called:runtask"), "returns a non-constant error after RunTask was called"
				}
			}
			c.Decide(ok, "dep-error-kept", key, r.Pos(), how, fmt.Sprintf("the dependency goroutine can return nil although RunTask failed (or without running the dependency); must-facts: %s", st))
		}
	}
	c.Floor("dep-error-kept", n, 1)
}
