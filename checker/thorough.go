package main

// Thorough tier: (a) the same rules under other GOOS/GOARCH so that build-tagged files are analysed too,
// (b) a deeper loop bound for the path enumerations, (c) the corpus of behaviour-breaking changes of this
// property (sub-agent seeded changes and own mutants) applied one at a time to a scratch copy of /repo's
// current tree outside /repo and /verif — the check must report every one of them.

import (
	"encoding/json"
	"fmt"
	"os"
	"os/exec"
	"path/filepath"
	"sort"
	"strings"
)

// loopBound is the number of times a block may be re-entered by the path enumerator.
var loopBoundExtra = 0

func revisit() int { return 1 + loopBoundExtra }

var platformMatrix = [][2]string{{"windows", "amd64"}, {"darwin", "arm64"}, {"linux", "386"}}

func thoroughExtras(c *Check, a *Anchors) {
	// (a) platform matrix
	base := c.P
	var platforms []string
	for _, pf := range platformMatrix {
		p2, err := Load(base.Dir, pf[0], pf[1])
		if err != nil {
			c.Errorf("thorough: cannot load %s/%s: %v", pf[0], pf[1], err)
			continue
		}
		a2 := ResolveAnchors(p2)
		if len(a2.Missing) > 0 {
			c.Errorf("thorough: anchors unresolved under %s/%s: %v", pf[0], pf[1], a2.Missing)
			continue
		}
		c.P = p2
		registry[c.ID](c, a2)
		platforms = append(platforms, pf[0]+"/"+pf[1])
	}
	c.P = base
	c.Extra["platforms_analysed"] = append([]string{"host"}, platforms...)
	// (b) deeper loop bound (only rules that enumerate paths are affected)
	loopBoundExtra = 1
	registry[c.ID](c, a)
	loopBoundExtra = 0
	c.Extra["loop_bound_blocks_revisited"] = 2
	// (c) corpus
	runCorpus(c)
}

type corpusItem struct {
	Name  string
	Patch string
}

func corpusFor(id string) []corpusItem {
	var out []corpusItem
	vd := verifDir()
	seeded, _ := filepath.Glob(filepath.Join(vd, "seeded", "*", "patch.diff"))
	for _, p := range seeded {
		name := filepath.Base(filepath.Dir(p))
		use := strings.HasPrefix(name, id+"-")
		if b, err := os.ReadFile(filepath.Join(filepath.Dir(p), "meta.json")); err == nil {
			var m struct {
				Detection struct {
					Violations map[string][]string `json:"violations"`
				} `json:"detection"`
			}
			if json.Unmarshal(b, &m) == nil {
				if _, ok := m.Detection.Violations[id]; ok {
					use = true
				}
			}
		}
		if use {
			out = append(out, corpusItem{name, p})
		}
	}
	self, _ := filepath.Glob(filepath.Join(vd, "selftest", "mutants", id+"-*.patch"))
	for _, p := range self {
		out = append(out, corpusItem{strings.TrimSuffix(filepath.Base(p), ".patch"), p})
	}
	sort.Slice(out, func(i, j int) bool { return out[i].Name < out[j].Name })
	return out
}

func runCorpus(c *Check) {
	items := corpusFor(c.ID)
	if len(items) == 0 {
		c.Notef("thorough: no corpus item targets %s", c.ID)
		return
	}
	self, err := os.Executable()
	if err != nil {
		c.Errorf("thorough: %v", err)
		return
	}
	tmp, err := os.MkdirTemp("", "taskverif-corpus-")
	if err != nil {
		c.Errorf("thorough: %v", err)
		return
	}
	defer os.RemoveAll(tmp)
	killed, skipped := 0, 0
	var results []string
	for _, it := range items {
		scratch := filepath.Join(tmp, "repo")
		os.RemoveAll(scratch)
		// copy the current working tree (without .git) — rebuilt from /repo on every run
		cp := exec.Command("rsync", "-a", "--exclude", ".git", "--exclude", ".task", c.P.Dir+"/", scratch+"/")
		if out, err := cp.CombinedOutput(); err != nil {
			c.Errorf("thorough: copying the tree failed: %v %s", err, out)
			return
		}
		ap := exec.Command("git", "apply", "--unsafe-paths", "--directory="+scratch, it.Patch)
		ap.Dir = scratch
		if err := exec.Command("patch", "-p1", "-s", "-d", scratch, "-i", it.Patch).Run(); err != nil {
			skipped++
			results = append(results, it.Name+": skipped (patch no longer applies to the current tree)")
			continue
		}
		_ = ap
		vd := filepath.Join(tmp, "verif")
		os.RemoveAll(vd)
		os.MkdirAll(filepath.Join(vd, "evidence"), 0o755)
		if b, err := os.ReadFile(filepath.Join(verifDir(), "known_findings.json")); err == nil {
			os.WriteFile(filepath.Join(vd, "known_findings.json"), b, 0o644)
		}
		run := exec.Command(self, "check", c.ID, "--tier", "quick")
		run.Env = append(os.Environ(), "VERIF_REPO="+scratch, "VERIF_DIR="+vd, "VERIF_TIER=quick")
		out, _ := run.CombinedOutput()
		if strings.Contains(string(out), "VIOLATION property="+c.ID) {
			killed++
			results = append(results, it.Name+": reported")
		} else {
			results = append(results, it.Name+": NOT reported")
			c.Errorf("thorough: corpus change %s (a confirmed violation of %s) is no longer reported by this check: the checker regressed", it.Name, c.ID)
		}
	}
	c.Extra["corpus"] = map[string]any{"items": len(items), "reported": killed, "skipped": skipped, "results": results,
		"how": "each change applied with patch(1) to an rsync copy of /repo's working tree under $TMPDIR, `taskverif check " + c.ID + "` run on the copy, copy removed"}
	fmt.Fprintf(os.Stderr, "%s thorough: corpus %d/%d reported (%d skipped)\n", c.ID, killed, len(items)-skipped, skipped)
}

func selftest(args []string) int {
	fmt.Println("use: taskverif check <ID> --tier thorough (runs the corpus of the property)")
	return 0
}
