package main

// thoroughExtras: deeper exploration for the thorough tier (platform matrix, mutant corpus); filled in per rule.
func thoroughExtras(c *Check, a *Anchors) {}

func selftest(args []string) int { return 0 }
