package main

// Thorough tier: (a) the same rules under other GOOS/GOARCH so that build-tagged files are analysed too,
// (b) a deeper loop bound for the path enumerations, (c) the corpus of behaviour-breaking changes of this
// property (sub-agent seeded changes and own mutants) applied one at a time to a scratch copy of /repo's
// current tree outside /repo and /verif — the check must report every one of them.

import (
	"encoding/json"
	"fmt"
	"os"
	"os/exec"
	"path/filepath"
	"sort"
	"strings"
)

// loopBound is the number of times a block may be re-entered by the path enumerator.
var loopBoundExtra = 0

func revisit() int { return 1 + loopBoundExtra }

var platformMatrix = [][2]string{{"windows", "amd64"}, {"darwin", "arm64"}, {"linux", "386"}}

func thoroughExtras(c *Check, a *Anchors) {
	// (a) platform matrix
	base := c.P
	var platforms []string
	for _, pf := range platformMatrix {
		p2, err := Load(base.Dir, pf[0], pf[1])
		if err != nil {
			c.Errorf("thorough: cannot load %s/%s: %v", pf[0], pf[1], err)
			continue
		}
		a2 := ResolveAnchors(p2)
		if len(a2.Missing) > 0 {
			c.Errorf("thorough: anchors unresolved under %s/%s: %v", pf[0], pf[1], a2.Missing)
			continue
		}
		c.P = p2
		registry[c.ID](c, a2)
		platforms = append(platforms, pf[0]+"/"+pf[1])
	}
	c.P = base
	c.Extra["platforms_analysed"] = append([]string{"host"}, platforms...)
	// (b) deeper loop bound (only rules that enumerate paths are affected)
	loopBoundExtra = 1
	registry[c.ID](c, a)
	loopBoundExtra = 0
	c.Extra["loop_bound_blocks_revisited"] = 2
	// (c) corpus
	runCorpus(c)
}

type corpusItem struct {
	Name  string
	Patch string
}

func corpusFor(id string) []corpusItem {
	var out []corpusItem
	vd := verifDir()
	seeded, _ := filepath.Glob(filepath.Join(vd, "seeded", "*", "patch.diff"))
	for _, p := range seeded {
		name := filepath.Base(filepath.Dir(p))
		use := strings.HasPrefix(name, id+"-")
		if b, err := os.ReadFile(filepath.Join(filepath.Dir(p), "meta.json")); err == nil {
			var m struct {
				Detection struct {
					Violations map[string][]string `json:"violations"`
				} `json:"detection"`
			}
			if json.Unmarshal(b, &m) == nil {
				if _, ok := m.Detection.Violations[id]; ok {
					use = true
				}
			}
		}
		if use {
			out = append(out, corpusItem{name, p})
		}
	}
	self, _ := filepath.Glob(filepath.Join(vd, "selftest", "mutants", id+"-*.patch"))
	for _, p := range self {
		out = append(out, corpusItem{strings.TrimSuffix(filepath.Base(p), ".patch"), p})
	}
	sort.Slice(out, func(i, j int) bool { return out[i].Name < out[j].Name })
	return out
}

// runOn applies one patch to a private copy of the tree and runs this property's quick check on it.
// Returns (output, applied).
func runOn(c *Check, self, tmp string, idx int, patch string) (string, bool, error) {
	scratch := filepath.Join(tmp, fmt.Sprintf("repo-%d", idx))
	vd := filepath.Join(tmp, fmt.Sprintf("verif-%d", idx))
	defer os.RemoveAll(scratch)
	defer os.RemoveAll(vd)
	// copy the current working tree (without .git) — rebuilt from /repo on every run
	cp := exec.Command("rsync", "-a", "--exclude", ".git", "--exclude", ".task", c.P.Dir+"/", scratch+"/")
	if out, err := cp.CombinedOutput(); err != nil {
		return "", false, fmt.Errorf("copying the tree failed: %v %s", err, out)
	}
	if err := exec.Command("patch", "-p1", "-s", "-d", scratch, "-i", patch).Run(); err != nil {
		return "", false, nil
	}
	os.MkdirAll(filepath.Join(vd, "evidence"), 0o755)
	if b, err := os.ReadFile(filepath.Join(verifDir(), "known_findings.json")); err == nil {
		os.WriteFile(filepath.Join(vd, "known_findings.json"), b, 0o644)
	}
	run := exec.Command(self, "check", c.ID, "--tier", "quick")
	run.Env = append(os.Environ(), "VERIF_REPO="+scratch, "VERIF_DIR="+vd, "VERIF_TIER=quick")
	out, _ := run.CombinedOutput()
	return string(out), true, nil
}

func runCorpus(c *Check) {
	items := corpusFor(c.ID)
	// silence corpus: the behaviour-preserving refactorings written against this property
	refs, _ := filepath.Glob(filepath.Join(verifDir(), "refactors", "*", "patch.diff"))
	sort.Strings(refs)
	var refItems []corpusItem
	for _, rp := range refs {
		name := filepath.Base(filepath.Dir(rp))
		if strings.HasPrefix(name, c.ID+"-") || strings.Contains(name, "-"+c.ID+"-") {
			refItems = append(refItems, corpusItem{name, rp})
		}
	}
	if len(items) == 0 && len(refItems) == 0 {
		c.Notef("thorough: no corpus item targets %s", c.ID)
		return
	}
	self, err := os.Executable()
	if err != nil {
		c.Errorf("thorough: %v", err)
		return
	}
	tmp, err := os.MkdirTemp("", "taskverif-corpus-")
	if err != nil {
		c.Errorf("thorough: %v", err)
		return
	}
	defer os.RemoveAll(tmp)
	type res struct {
		out     string
		applied bool
		err     error
	}
	all := append(append([]corpusItem{}, items...), refItems...)
	results := make([]res, len(all))
	sem := make(chan struct{}, 6) // six copies of the tree are analysed at a time
	done := make(chan int, len(all))
	for i := range all {
		go func(i int) {
			sem <- struct{}{}
			out, applied, err := runOn(c, self, tmp, i, all[i].Patch)
			results[i] = res{out, applied, err}
			<-sem
			done <- i
		}(i)
	}
	for range all {
		<-done
	}
	killed, skipped := 0, 0
	var lines []string
	for i, it := range items {
		r := results[i]
		switch {
		case r.err != nil:
			c.Errorf("thorough: %v", r.err)
		case !r.applied:
			skipped++
			lines = append(lines, it.Name+": skipped (patch no longer applies to the current tree)")
		case strings.Contains(r.out, "VIOLATION property="+c.ID):
			killed++
			lines = append(lines, it.Name+": reported")
		default:
			lines = append(lines, it.Name+": NOT reported")
			c.Errorf("thorough: corpus change %s (a confirmed violation of %s) is no longer reported by this check: the checker regressed", it.Name, c.ID)
		}
	}
	nSilent, nRefSkipped := 0, 0
	var refLines []string
	for j, it := range refItems {
		r := results[len(items)+j]
		switch {
		case r.err != nil:
			c.Errorf("thorough: %v", r.err)
		case !r.applied:
			nRefSkipped++
			refLines = append(refLines, it.Name+": skipped (patch no longer applies to the current tree)")
		case strings.Contains(r.out, "VIOLATION property=") || strings.Contains(r.out, "ERROR property="):
			refLines = append(refLines, it.Name+": ALARM")
			c.Errorf("thorough: the behaviour-preserving refactoring %s makes this check raise an alarm: the checker regressed (false alarm)", it.Name)
		default:
			nSilent++
			refLines = append(refLines, it.Name+": silent")
		}
	}
	how := "each change applied with patch(1) to an rsync copy of /repo's working tree under $TMPDIR, `taskverif check " + c.ID + "` run on the copy (six at a time), copy removed"
	c.Extra["corpus"] = map[string]any{"items": len(items), "reported": killed, "skipped": skipped, "results": lines, "how": how}
	c.Extra["silence_corpus"] = map[string]any{"items": len(refItems), "silent": nSilent, "skipped": nRefSkipped, "results": refLines,
		"how": "every stored behaviour-preserving refactoring that targets this property, applied the same way: the check must print neither VIOLATION nor ERROR"}
	fmt.Fprintf(os.Stderr, "%s thorough: corpus %d/%d reported (%d skipped); silence corpus %d/%d silent (%d skipped)\n", c.ID, killed, len(items)-skipped, skipped, nSilent, len(refItems)-nRefSkipped, nRefSkipped)
}

func selftest(args []string) int {
	fmt.Println("use: taskverif check <ID> --tier thorough (runs the corpus of the property)")
	return 0
}
