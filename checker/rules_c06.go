package main

import (
	"fmt"
	"go/ast"
	"go/token"
	"go/types"
	"sort"
	"strings"
)

func init() { register("C06", checkC06) }

func checkC06(c *Check, a *Anchors) {
	c.NotDecided = []string{
		"hash collisions of hashstructure / xxh3",
		"that templating makes every distinct variable assignment visible in exported string fields (value level)",
		"exact execution counts under all interleavings (decided only: atomic check-and-register, waiters observe the outcome)",
	}
	c06RunModeSwitch(c, a)
	dedupAtomic(c, a, "dedup-atomic")
	dedupEmptyKey(c, a)
	tableEntriesPermanent(c, a)
	sharedWait(c, a)
	c06HashSeesInputs(c, a)
	c06OnceKey(c, a)
	hashOptionsDefault(c, a)
	c09MapRanges(c, a) // the when_changed key covers the compiled commands: an unordered loop in the compiler makes identical calls hash differently
	compiledFromDefinition(c, a, "compiled-from-definition")
	c06KeyFromFullCompile(c, a)
	c06ExecutionTableOnlyGrows(c, a)
	atomicSection(c, a.HandleDynamicVar, PkgTask, "Compiler", "dynamicCache", "muDynamicCache", "memo-atomic", "lookup and store of the dynamic-variable memo are one critical section: two parallel callers of a when_changed task that both miss the memo evaluate a non-idempotent sh: variable twice, get two values and therefore two execution keys")
	c06FileDefaultsNotImported(c, a, "file-defaults-not-imported")
}

func c06RunModeSwitch(c *Check, a *Anchors) {
	c.Rule("run-mode-switch", "GetHash switches on cmp.Or(task.Run, Taskfile.Run) (the task's own mode wins) and maps always->hash.Empty, once->hash.Name, when_changed->hash.Hash, anything else -> error; the dedup function executes directly for the empty key and consults the execution table only for a non-empty key")
	fb := a.GetHash
	c.Fn(fb)
	info := fb.Info()
	name := fnDisplay(fb)
	var sw *ast.SwitchStmt
	inspectBody(fb.Body, func(nd ast.Node) bool {
		if s, ok := nd.(*ast.SwitchStmt); ok && s.Tag != nil && sw == nil {
			sw = s
		}
		return true
	})
	if sw == nil {
		// table form: h, ok := <package-level map[string]hash.HashFunc>[mode]; !ok -> error
		if c06RunModeTable(c, a, fb) {
			return
		}
		c.Bad("run-mode-switch", "switch@"+name, fb.Decl.Pos(), "GetHash neither switches on the run mode nor looks it up in a table of hash functions")
		return
	}
	// tag provenance
	tagOK := false
	var tagExpr ast.Expr = sw.Tag
	if v := varOf(info, sw.Tag); v != nil {
		if d := singleDef(info, fb.Body, v); d != nil {
			tagExpr = d
		}
	}
	if call, ok := ast.Unparen(tagExpr).(*ast.CallExpr); ok && isFunc(callee(info, call), "cmp", "", "Or") && len(call.Args) == 2 {
		tagOK = fieldSel(info, call.Args[0], PkgAst, "Task", "Run") && fieldSel(info, call.Args[1], PkgAst, "Taskfile", "Run")
	}
	c.Decide(tagOK, "run-mode-switch", "task-mode-wins@"+name, sw.Pos(), "cmp.Or(t.Run, e.Taskfile.Run)", "the run mode is not `cmp.Or(task.Run, Taskfile.Run)`: the task's own run: setting no longer overrides the Taskfile's")
	want := map[string]string{`"always"`: "Empty", `"once"`: "Name", `"when_changed"`: "Hash"}
	got := map[string]string{}
	defaultErr := false
	for _, cl := range sw.Body.List {
		cc := cl.(*ast.CaseClause)
		if cc.List == nil {
			for _, r := range returnsOf(cc) {
				if res := errResult(r); res != nil && !isNilLit(info, res) {
					defaultErr = true
				}
			}
			continue
		}
		fnName := ""
		ast.Inspect(cc, func(nd ast.Node) bool {
			if id, ok := nd.(*ast.Ident); ok {
				if f, ok := info.Uses[id].(*types.Func); ok && f.Pkg() != nil && f.Pkg().Path() == PkgHash {
					fnName = f.Name()
				}
			}
			return true
		})
		for _, e := range cc.List {
			if t := constText(info, e); t != "" {
				got[t] = fnName
			} else {
				got[exprStr(e)] = fnName
			}
		}
	}
	var keys []string
	for k := range want {
		keys = append(keys, k)
	}
	sort.Strings(keys)
	for _, k := range keys {
		c.Decide(got[k] == want[k], "run-mode-switch", "case "+k+"@"+name, sw.Pos(), "-> hash."+want[k], fmt.Sprintf("run mode %s selects hash.%s, expected hash.%s", k, got[k], want[k]))
	}
	for k := range got {
		if _, ok := want[k]; !ok {
			c.Bad("run-mode-switch", "case "+k+"@"+name, sw.Pos(), "unexpected run mode case "+k)
		}
	}
	c.Decide(defaultErr, "run-mode-switch", "default-errors@"+name, sw.Pos(), "unknown modes return an error", "an unknown run mode no longer returns an error")
}

func c06HashSeesInputs(c *Check, a *Anchors) {
	c.Rule("hash-sees-inputs", "hashstructure walks exported fields only: every struct type reachable from ast.Task through exported fields that keeps data in unexported fields must implement Hash() (uint64, error), otherwise the variables a call passes are invisible to the when_changed key (allow-list: types that are identical for every call of a task)")
	allow := map[string]string{
		"Matrix": "part of the static task definition (the same for every call of a task); per-call data never lives in it",
	}
	task := c.P.NamedType(PkgAst, "Task")
	if task == nil {
		c.Errorf("hash-sees-inputs: ast.Task not found")
		return
	}
	seen := map[types.Type]bool{}
	n := 0
	var walk func(t types.Type, path string)
	walk = func(t types.Type, path string) {
		switch x := t.(type) {
		case *types.Pointer:
			walk(x.Elem(), path)
		case *types.Slice:
			walk(x.Elem(), path+"[]")
		case *types.Array:
			walk(x.Elem(), path+"[]")
		case *types.Map:
			walk(x.Elem(), path+"[]")
		case *types.Alias:
			walk(types.Unalias(x), path)
		case *types.Named:
			if seen[x] {
				return
			}
			seen[x] = true
			st, ok := x.Underlying().(*types.Struct)
			if !ok || x.Obj().Pkg() == nil || !strings.HasPrefix(x.Obj().Pkg().Path(), Mod) {
				return
			}
			var hidden []string
			for i := 0; i < st.NumFields(); i++ {
				f := st.Field(i)
				if f.Exported() {
					walk(f.Type(), path+"."+f.Name())
					continue
				}
				ts := types.TypeString(f.Type(), nil)
				if strings.HasPrefix(ts, "sync.") {
					continue
				}
				hidden = append(hidden, f.Name())
			}
			if len(hidden) == 0 {
				return
			}
			n++
			hashable := false
			for _, recv := range []types.Type{x, types.NewPointer(x)} {
				ms := types.NewMethodSet(recv)
				for i := 0; i < ms.Len(); i++ {
					if m := ms.At(i).Obj(); m.Name() == "Hash" {
						if sig, ok := m.Type().(*types.Signature); ok && sig.Params().Len() == 0 && sig.Results().Len() == 2 {
							hashable = true
						}
					}
				}
			}
			key := "ast." + x.Obj().Name()
			switch {
			case hashable:
				c.OK("hash-sees-inputs", key, x.Obj().Pos(), "implements Hash()")
			case allow[x.Obj().Name()] != "":
				c.OK("hash-sees-inputs", key, x.Obj().Pos(), "allow-listed: "+allow[x.Obj().Name()])
			default:
				c.Bad("hash-sees-inputs", key, x.Obj().Pos(), fmt.Sprintf("%s (reached as Task%s) keeps its data in unexported field(s) %v and has no Hash() method: hashstructure sees an empty struct, so two calls that differ only in these values get the same when_changed key and run once", key, path, hidden))
			}
		}
	}
	walk(task, "")
	c.Floor("hash-sees-inputs", n, 1)
}

func c06OnceKey(c *Check, a *Anchors) {
	c.Rule("once-key", "the run: once key (hash.Name) is built from both the defining Taskfile and the task's local name; LocalName only strips the namespace prefix and the separator from the full name (prefix stripping is injective within one file); the when_changed key (hash.Hash) is built from the task name and the structural hash of the compiled task")
	nameFn := c.P.Func(PkgHash, "", "Name")
	hashFn := c.P.Func(PkgHash, "", "Hash")
	local := c.P.Func(PkgAst, "Task", "LocalName")
	if nameFn == nil || hashFn == nil || local == nil {
		c.Errorf("once-key: hash.Name / hash.Hash / Task.LocalName not found")
		return
	}
	c.Fn(nameFn)
	c.Fn(hashFn)
	c.Fn(local)
	info := nameFn.Info()
	usesFile, usesLocal := false, false
	for _, r := range returnsOf(nameFn.Body) {
		ast.Inspect(r, func(nd ast.Node) bool {
			switch x := nd.(type) {
			case *ast.SelectorExpr:
				if fieldSel(info, x, PkgAst, "Location", "Taskfile") {
					usesFile = true
				}
			case *ast.CallExpr:
				if a.is(callee(info, x), local) {
					usesLocal = true
				}
			}
			return true
		})
	}
	c.Decide(usesFile && usesLocal, "once-key", "file-and-local-name@"+fnDisplay(nameFn), nameFn.Decl.Pos(), "key = f(Location.Taskfile, LocalName())", fmt.Sprintf("the run: once key does not depend on both the defining Taskfile (%v) and the task's local name (%v): distinct tasks could share one execution", usesFile, usesLocal))
	// LocalName: TrimPrefix only
	linfo := local.Info()
	onlyTrim, fromTask := true, false
	var other []string
	for _, call := range callsIn(local, true) {
		obj := callee(linfo, call)
		if (isFunc(obj, "strings", "", "TrimPrefix") || isFunc(obj, "strings", "", "CutPrefix")) && len(call.Args) == 2 {
			arg := ast.Unparen(call.Args[1])
			okArg := fieldSel(linfo, arg, PkgAst, "Task", "Namespace")
			if constIs(linfo, arg, `":"`) {
				okArg = true // the literal or the NamespaceSeparator constant
			}
			if !okArg {
				onlyTrim = false
				other = append(other, exprStr(call))
			}
			continue
		}
		onlyTrim = false
		other = append(other, exprStr(call))
	}
	inspectBody(local.Body, func(nd ast.Node) bool {
		if sel, ok := nd.(*ast.SelectorExpr); ok && fieldSel(linfo, sel, PkgAst, "Task", "Task") {
			fromTask = true
		}
		if _, ok := nd.(*ast.SliceExpr); ok {
			onlyTrim = false
			other = append(other, "slice expression")
		}
		return true
	})
	c.Decide(onlyTrim && fromTask, "once-key", "prefix-strip-only@"+fnDisplay(local), local.Decl.Pos(), "LocalName = TrimPrefix(TrimPrefix(Task, Namespace), separator)", "LocalName derives the local name by something other than stripping the namespace prefix ("+strings.Join(other, "; ")+"): two different tasks of one file can get the same run: once key")
	hinfo := hashFn.Info()
	usesTask, usesStruct := false, false
	inspectBody(hashFn.Body, func(nd ast.Node) bool {
		switch x := nd.(type) {
		case *ast.SelectorExpr:
			if fieldSel(hinfo, x, PkgAst, "Task", "Task") {
				usesTask = true
			}
		case *ast.CallExpr:
			if fn, ok := callee(hinfo, x).(*types.Func); ok && fn.Pkg() != nil && strings.Contains(fn.Pkg().Path(), "hashstructure") && fn.Name() == "Hash" {
				usesStruct = len(x.Args) > 0 && varOf(hinfo, x.Args[0]) != nil
			}
		}
		return true
	})
	c.Decide(usesTask && usesStruct, "once-key", "name-and-structure@"+fnDisplay(hashFn), hashFn.Decl.Pos(), "key = f(Task, hashstructure(task))", "the when_changed key does not combine the task name with the structural hash of the compiled task")
}

// c06RunModeTable decides the same mapping when GetHash looks the mode up in a package-level map literal.
func c06RunModeTable(c *Check, a *Anchors, fb *FuncBody) bool {
	info := fb.Info()
	name := fnDisplay(fb)
	var okVar *types.Var
	var tbl *types.Var
	var idx ast.Expr
	var at ast.Node
	tblFn := fb // the function holding the table lookup: GetHash itself, or a lookup helper it calls
	// lookupIn: `v, ok := table[key]` in body, with table a package-level map
	lookupIn := func(h *FuncBody) (*ast.IndexExpr, *ast.AssignStmt) {
		var ix *ast.IndexExpr
		var asg *ast.AssignStmt
		inspectBody(h.Body, func(nd ast.Node) bool {
			as, ok := nd.(*ast.AssignStmt)
			if !ok || len(as.Lhs) != 2 || len(as.Rhs) != 1 {
				return true
			}
			if x, ok := ast.Unparen(as.Rhs[0]).(*ast.IndexExpr); ok {
				if tv, ok := h.Info().Types[x.X]; ok {
					if _, isMap := tv.Type.Underlying().(*types.Map); isMap {
						ix, asg = x, as
					}
				}
			}
			return true
		})
		return ix, asg
	}
	if ix, as := lookupIn(fb); ix != nil {
		tbl, idx, okVar, at = varOf(info, ix.X), ix.Index, varOf(info, as.Lhs[1]), ix
	} else {
		// `h, ok := helper(mode)` where the helper looks its parameter up in the table and hands both results back
		inspectBody(fb.Body, func(nd ast.Node) bool {
			as, ok := nd.(*ast.AssignStmt)
			if !ok || len(as.Lhs) != 2 || len(as.Rhs) != 1 || tbl != nil {
				return true
			}
			call, ok := ast.Unparen(as.Rhs[0]).(*ast.CallExpr)
			if !ok || len(call.Args) != 1 {
				return true
			}
			fn, _ := callee(info, call).(*types.Func)
			h := c.P.DeclOf(fn)
			if h == nil || h.Decl == nil || !strings.HasPrefix(h.Pkg.PkgPath, Mod) || h.Type.Params.NumFields() != 1 || len(h.Type.Params.List[0].Names) != 1 {
				return true
			}
			hix, has := lookupIn(h)
			if hix == nil {
				return true
			}
			hinfo := h.Info()
			param, _ := hinfo.Defs[h.Type.Params.List[0].Names[0]].(*types.Var)
			if param == nil || varOf(hinfo, hix.Index) != param {
				return true
			}
			// every return hands back the looked-up pair
			pair := true
			nret := 0
			inspectBody(h.Body, func(m ast.Node) bool {
				if r, ok := m.(*ast.ReturnStmt); ok {
					nret++
					if len(r.Results) != 2 || varOf(hinfo, r.Results[0]) == nil || varOf(hinfo, r.Results[0]) != varOf(hinfo, has.Lhs[0]) || varOf(hinfo, r.Results[1]) != varOf(hinfo, has.Lhs[1]) {
						pair = false
					}
				}
				return true
			})
			if !pair || nret == 0 {
				return true
			}
			tbl, idx, okVar, at, tblFn = varOf(hinfo, hix.X), call.Args[0], varOf(info, as.Lhs[1]), call, h
			c.Fn(h)
			return true
		})
	}
	if tbl == nil || at == nil || tbl.Parent() != tbl.Pkg().Scope() {
		return false
	}
	ix := at
	// the index: cmp.Or(t.Run, e.Taskfile.Run)
	if v := varOf(info, idx); v != nil {
		if d := singleDef(info, fb.Body, v); d != nil {
			idx = d
		}
	}
	tagOK := false
	if call, ok := ast.Unparen(idx).(*ast.CallExpr); ok && isFunc(callee(info, call), "cmp", "", "Or") && len(call.Args) == 2 {
		tagOK = fieldSel(info, call.Args[0], PkgAst, "Task", "Run") && fieldSel(info, call.Args[1], PkgAst, "Taskfile", "Run")
	}
	c.Decide(tagOK, "run-mode-switch", "task-mode-wins@"+name, ix.Pos(), "cmp.Or(t.Run, e.Taskfile.Run)", "the run mode is not `cmp.Or(task.Run, Taskfile.Run)`: the task's own run: setting no longer overrides the Taskfile's")
	// the table literal
	got := map[string]string{}
	var lit *ast.CompositeLit
	tinfo := tblFn.Info()
	for _, f := range tblFn.Pkg.Syntax {
		ast.Inspect(f, func(nd ast.Node) bool {
			vs, ok := nd.(*ast.ValueSpec)
			if !ok {
				return true
			}
			for i, id := range vs.Names {
				if tinfo.Defs[id] == tbl && i < len(vs.Values) {
					lit, _ = ast.Unparen(vs.Values[i]).(*ast.CompositeLit)
				}
			}
			return true
		})
	}
	if lit == nil {
		return false
	}
	for _, e := range lit.Elts {
		kv, ok := e.(*ast.KeyValueExpr)
		if !ok {
			continue
		}
		fnName := exprStr(kv.Value)
		ast.Inspect(kv.Value, func(nd ast.Node) bool {
			if id, ok := nd.(*ast.Ident); ok {
				if f, ok := tinfo.Uses[id].(*types.Func); ok && f.Pkg() != nil && f.Pkg().Path() == PkgHash {
					fnName = f.Name()
				}
			}
			return true
		})
		if t := constText(tinfo, kv.Key); t != "" {
			got[t] = fnName
		} else {
			got[exprStr(kv.Key)] = fnName
		}
	}
	want := map[string]string{`"always"`: "Empty", `"once"`: "Name", `"when_changed"`: "Hash"}
	for _, k := range []string{`"always"`, `"once"`, `"when_changed"`} {
		c.Decide(got[k] == want[k], "run-mode-switch", "case "+k+"@"+name, lit.Pos(), "-> hash."+want[k], fmt.Sprintf("run mode %s selects hash.%s, expected hash.%s", k, got[k], want[k]))
	}
	for k := range got {
		if _, ok := want[k]; !ok {
			c.Bad("run-mode-switch", "case "+k+"@"+name, lit.Pos(), "unexpected run mode entry "+k)
		}
	}
	// the table is never written after initialisation
	written := false
	for _, b := range c.P.bodies {
		if !strings.HasPrefix(b.Pkg.PkgPath, Mod) {
			continue
		}
		binfo := b.Info()
		inspectDeep(b.Body, func(nd ast.Node) bool {
			if call, ok := nd.(*ast.CallExpr); ok && (isBuiltin(binfo, call, "delete") || isBuiltin(binfo, call, "clear")) && len(call.Args) > 0 && varOf(binfo, call.Args[0]) == tbl {
				written = true
			}
			if as, ok := nd.(*ast.AssignStmt); ok {
				for _, l := range as.Lhs {
					if x, ok := ast.Unparen(l).(*ast.IndexExpr); ok && varOf(binfo, x.X) == tbl {
						written = true
					}
					if varOf(binfo, l) == tbl {
						written = true
					}
				}
			}
			return true
		})
	}
	c.Decide(!written, "run-mode-switch", "table-constant@"+name, lit.Pos(), "the table is only initialised", "the run-mode table is modified at run time")
	// a miss returns an error
	defaultErr := false
	f := NewFlow(c.P, fb, func(call *ast.CallExpr, obj types.Object) string { return "" })
	f.Run()
	inspectBody(fb.Body, func(nd ast.Node) bool {
		ifs, ok := nd.(*ast.IfStmt)
		if !ok {
			return true
		}
		if u, ok := ast.Unparen(ifs.Cond).(*ast.UnaryExpr); ok && u.Op == token.NOT && varOf(info, u.X) == okVar {
			for _, r := range returnsOf(ifs.Body) {
				if res := errResult(r); res != nil && !isNilLit(info, res) {
					defaultErr = true
				}
			}
		}
		return true
	})
	c.Decide(defaultErr, "run-mode-switch", "default-errors@"+name, ix.Pos(), "unknown modes return an error", "an unknown run mode no longer returns an error")
	return true
}

// compileKind: "full" when the call compiles a task with its dynamic (sh:) variables evaluated, "fast" when they are
// blanked: the task compiler called with the constant true / false for its bool parameter, directly or through a wrapper of
// the package whose single statement returns such a call.
func (a *Anchors) compileKind(p *Prog, info *types.Info, call *ast.CallExpr, depth int) string {
	fn, _ := callee(info, call).(*types.Func)
	if fn == nil || a.CompiledTask == nil {
		return ""
	}
	if fn == a.CompiledTask.Obj {
		for _, arg := range call.Args {
			if tv, ok := info.Types[arg]; ok && tv.Value != nil && types.TypeString(tv.Type, nil) == "bool" || ok && tv.Value != nil && tv.Value.String() == "true" || ok && tv.Value != nil && tv.Value.String() == "false" {
				if tv.Value.String() == "true" {
					return "full"
				}
				return "fast"
			}
		}
		return "unknown"
	}
	if depth <= 0 {
		return ""
	}
	h := p.DeclOf(fn)
	if h == nil || h.Decl == nil || h.Pkg.PkgPath != PkgTask || len(h.Body.List) != 1 {
		return ""
	}
	r, ok := h.Body.List[0].(*ast.ReturnStmt)
	if !ok || len(r.Results) != 1 {
		return ""
	}
	inner, ok := ast.Unparen(r.Results[0]).(*ast.CallExpr)
	if !ok {
		return ""
	}
	return a.compileKind(p, h.Info(), inner, depth-1)
}

// c06KeyFromFullCompile: the deduplication key is computed from the task the dedup function is handed.
func c06KeyFromFullCompile(c *Check, a *Anchors) {
	c.Rule("key-from-full-compile", "the task RunTask hands to the dedup function — from which the run: when_changed key is hashed — is, on every path, the result of the FULL task compilation (dynamic variables evaluated); a task compiled with the dynamic variables blanked has the same commands for calls that differ only through an sh: variable, so the second call would be skipped as a duplicate")
	rt := a.RunTask
	if a.DedupCall == nil {
		c.Errorf("key-from-full-compile: dedup call not found")
		return
	}
	c.Fn(rt)
	info := rt.Info()
	f := NewFlow(c.P, rt, func(call *ast.CallExpr, obj types.Object) string {
		switch a.compileKind(c.P, info, call, 1) {
		case "full":
			return "compile-full"
		case "fast", "unknown":
			return "compile-fast"
		}
		return a.labelObj(obj)
	})
	f.Run()
	var tv *types.Var
	for _, arg := range a.DedupCall.Args {
		if v := varOf(info, arg); v != nil && isNamed(v.Type(), PkgAst, "Task") {
			tv = v
		}
	}
	if tv == nil {
		c.Errorf("key-from-full-compile: the dedup function is not handed a task variable")
		return
	}
	st := f.At[a.DedupCall]
	c.Decide(st.Has(defPrefix(tv)+"compile-full"), "key-from-full-compile", "dedup-task@"+fnDisplay(rt), a.DedupCall.Pos(), "the task handed to the dedup function is the fully compiled one",
		"the task handed to the dedup function is not, on every path, the result of the full compilation (dynamic variables evaluated): the when_changed key would be hashed from commands in which every sh: variable is blank; must-facts: "+st.String())
}

// c06FileDefaultsNotImported: Taskfile.Run (and the other file-wide settings) of the ROOT Taskfile are what GetHash and the
// task compiler apply to every task without a setting of its own; merging an included Taskfile must not change them.
var taskfileMergeWrites = map[string]string{
	"Output":   "upstream behaviour: an included Taskfile that sets output: overrides the output style",
	"Includes": "initialisation of a nil container",
	"Vars":     "initialisation of a nil container",
	"Env":      "initialisation of a nil container",
	"Tasks":    "initialisation of a nil container",
}

func c06FileDefaultsNotImported(c *Check, a *Anchors, rule string) {
	c.Rule(rule, "Taskfile.Merge assigns no file-wide setting of the including Taskfile (Run, Method, Silent, Set, Shopt, Interval, Version, Dotenv): they stay the root Taskfile's. They are the defaults applied to EVERY task without a setting of its own — an included file's `run: once` taken over by the root would deduplicate all the root's tasks (reviewed writes: output, and the initialisation of nil containers)")
	tm := c.P.Func(PkgAst, "Taskfile", "Merge")
	if tm == nil {
		c.Errorf("%s: Taskfile.Merge not found", rule)
		return
	}
	n := 0
	for _, fb := range c.P.groupOf(tm, 1) {
		info := fb.Info()
		if fb.Decl == nil || fb.Decl.Recv == nil || recvOf(fb) != "Taskfile" || len(fb.Decl.Recv.List[0].Names) == 0 {
			continue
		}
		recv, _ := info.Defs[fb.Decl.Recv.List[0].Names[0]].(*types.Var)
		c.Fn(fb)
		inspectDeep(fb.Body, func(nd ast.Node) bool {
			as, ok := nd.(*ast.AssignStmt)
			if !ok {
				return true
			}
			for _, l := range as.Lhs {
				sel, ok := ast.Unparen(l).(*ast.SelectorExpr)
				if !ok || varOf(info, sel.X) != recv || !fieldSel(info, sel, PkgAst, "Taskfile", sel.Sel.Name) {
					continue
				}
				n++
				why, okW := taskfileMergeWrites[sel.Sel.Name]
				// a write whose value does not involve the included Taskfile imports nothing from it (initialisations, a
				// snapshot of the file's own state)
				if !okW {
					fromIncluded := false
					for _, r := range as.Rhs {
						ast.Inspect(r, func(m ast.Node) bool {
							if id, ok := m.(*ast.Ident); ok {
								if v, ok := info.Uses[id].(*types.Var); ok && v != recv && isNamed(v.Type(), PkgAst, "Taskfile") {
									fromIncluded = true
								}
							}
							return true
						})
					}
					if !fromIncluded {
						why, okW = "the value does not come from the included Taskfile", true
					}
				}
				c.Decide(okW, rule, "merge-writes Taskfile."+sel.Sel.Name, as.Pos(), "reviewed: "+why,
					"Taskfile.Merge assigns the including Taskfile's "+sel.Sel.Name+": a file-wide default of the root Taskfile now depends on what its includes declare (for Run: every task of the root without its own run: is deduplicated like the include's tasks)")
			}
			return true
		})
	}
	c.Floor(rule, n, 3)
}

// c06ExecutionTableOnlyGrows: within an invocation the record of executions is never emptied.
func c06ExecutionTableOnlyGrows(c *Check, a *Anchors) {
	c.Rule("execution-table-only-grows", "no function reachable from Run or RunTask replaces, clears or deletes from Executor.executionHashes (it is created during setup and then only gains entries in the dedup function): a table that is reset on the way — per command-line target, per direct call — lets a run: once task that several targets share execute once per target")
	runPhase := c.P.ReachableFrom([]*FuncBody{a.Run, a.RunTask}, nil)
	n := 0
	ord := map[string]int{}
	for _, fb := range c.P.BodiesIn(PkgTask) {
		info := fb.Info()
		inspectBody(fb.Body, func(nd ast.Node) bool {
			what := ""
			var pos token.Pos
			switch x := nd.(type) {
			case *ast.AssignStmt:
				for _, l := range x.Lhs {
					if fieldSel(info, l, PkgTask, "Executor", "executionHashes") {
						what, pos = "replaces the table", x.Pos()
					}
				}
			case *ast.CallExpr:
				if (isBuiltin(info, x, "delete") || isBuiltin(info, x, "clear")) && len(x.Args) > 0 && fieldSel(info, x.Args[0], PkgTask, "Executor", "executionHashes") {
					what, pos = "removes entries from the table", x.Pos()
				}
			}
			if what == "" {
				return true
			}
			n++
			c.Fn(fb.Root())
			inRun := runPhase[fb.Root()]
			c.Decide(!inRun, "execution-table-only-grows", ordinal(ord, "table-reset@"+fnDisplay(fb.Root())), pos, "only during setup",
				fnDisplay(fb.Root())+" "+what+" of recorded executions and is reachable from Run / RunTask: executions recorded earlier in the same invocation are forgotten, so a run: once task referenced again (by the next command-line target, by a later direct call) runs again")
			return true
		})
	}
	c.Floor("execution-table-only-grows", n, 1)
}
