package main

import (
	"fmt"
	"go/ast"
	"go/token"
	"go/types"
	"sort"
	"strings"
)

func init() { register("C07", checkC07) }

func checkC07(c *Check, a *Anchors) {
	c.NotDecided = []string{
		"deadlock-freedom and termination for every task graph, starvation and fairness: schedule-level statements that no sound static argument in reach bounds; only the slot/lock discipline below is decided",
		"that at most N commands run at any instant (follows from the discipline only under the assumption that every command runs under a held slot, which IS decided)",
	}
	c07SlotPaired(c, a)
	c07SlotStates(c, a)
	dedupNoLockAcrossBlock(c, a)
	sharedWait(c, a) // a completion signal that is not raised on some path leaves waiters blocked forever
	c07SemCapacity(c, a)
	c07RecursionGated(c, a)
	c07ReentrantWait(c, a)
	c07SoleLimiter(c, a)
	recursionReviewed(c, a, "recursion-reviewed")
	lockReleasedOnEveryExit(c, a, "lock-released-on-every-exit")
	c06OnceKey(c, a) // two different tasks that share a run-once key wait for each other's execution: a dependency between them deadlocks
	c07SlotAPIDirect(c, a)
	c07NoLockAcrossRun(c, a)
	c03StopOnError(c, a) // "cyclic references end with an error": the call-count error travels up through the cmds loops of the cycle; a loop that continues after anything but an ignored exit status swallows it
}

func c07SlotPaired(c *Check, a *Anchors) {
	c.Rule("slot-paired", "every call of the slot-acquire function binds its result (the release closure) and defers it, and every call of the slot-release function binds its result (the re-acquire closure) and defers it, on all paths: the token count is restored on every exit")
	n := 0
	for _, fb := range c.P.BodiesIn(PkgTask) {
		info := fb.Info()
		uses := false
		for _, call := range callsIn(fb, false) {
			if l := a.labelObj(callee(info, call)); l == "acquire" || l == "release" {
				uses = true
			}
		}
		if !uses {
			continue
		}
		c.Fn(fb)
		f := NewFlow(c.P, fb, a.labelRun(info))
		f.Run()
		pm := parentMap(fb.Body)
		ord := map[string]int{}
		for call, l := range f.Labels {
			if l != "acquire" && l != "release" {
				continue
			}
			if _, isDefer := pm[call].(*ast.DeferStmt); isDefer {
				continue
			}
			n++
			key := ordinal(ord, l+"@"+fnDisplay(fb))
			// the result must be bound, and at every exit after the call the bound closure must have been deferred (direct
			// form: nothing is returned; the opposite operation must have been deferred at every exit)
			bound := a.SlotDirect
			if as, ok := pm[call].(*ast.AssignStmt); ok && len(as.Lhs) == 1 {
				if id, ok := as.Lhs[0].(*ast.Ident); ok && id.Name != "_" {
					bound = true
				}
			}
			// direct `defer e.acquire()()`
			if outer, ok := pm[call].(*ast.CallExpr); ok && outer.Fun == ast.Expr(call) {
				if _, isDefer := pm[outer].(*ast.DeferStmt); isDefer {
					c.OK("slot-paired", key, call.Pos(), "result deferred directly")
					continue
				}
			}
			okAll, where := bound, ""
			if bound {
				check := func(st Facts, pos token.Pos) {
					if st.Has("called:"+l) && !st.Has(a.slotUndoDeferred(l)) && pos > call.Pos() {
						okAll, where = false, c.P.Pos(pos)
					}
				}
				for _, r := range f.Returns {
					check(f.At[r], r.Pos())
				}
				if f.Exit != nil {
					check(f.Exit, fb.Body.End())
				}
			}
			what := "the closure returned by the slot-" + l + " function is not deferred on every path (exit at " + where + "): the concurrency token count is not restored, so the invocation can hang or exceed its limit"
			if !bound {
				what = "the closure returned by the slot-" + l + " function is discarded"
			}
			c.Decide(okAll, "slot-paired", key, call.Pos(), "result bound and deferred on all paths", what)
		}
	}
	c.Floor("slot-paired", n, 4)
}

func c07SlotStates(c *Check, a *Anchors) {
	c.Rule("slot-states", "typestate {held, released}: RunTask acquires the slot before the dedup call; every blocking event of the run phase (errgroup.Wait of the dependency runner, the wait for a deduplicated execution, a nested RunTask in the command runner) happens after the slot was handed back; the cmds RunCommand site is never reached after a hand-back in the same function")
	// acquire dominates dedup in RunTask
	rt := a.RunTask
	c.Fn(rt)
	f := NewFlow(c.P, rt, a.labelRun(rt.Info()))
	f.Run()
	for call, l := range f.Labels {
		if l == "dedup" {
			st := f.At[call]
			c.Decide(st.Has("called:acquire") && st.Has(a.slotUndoDeferred("acquire")), "slot-states", "acquire-before-execution@"+fnDisplay(rt), call.Pos(), "the slot is held (and its release deferred) when the execution starts",
				"RunTask starts the execution without holding a concurrency slot on every path: more than N tasks can execute commands; must-facts: "+st.String())
		}
	}
	// blocking events
	type ev struct {
		fb    *FuncBody
		label string
		desc  string
	}
	for _, e := range []ev{{a.DepRunner, "wait", "errgroup.Wait of the dependency runner"}, {a.CmdRunner, "runtask", "nested RunTask of a task-call command"}} {
		c.Fn(e.fb)
		fl := NewFlow(c.P, e.fb, a.labelRun(e.fb.Info()))
		fl.Run()
		n := 0
		for call, l := range fl.Labels {
			if l != e.label {
				continue
			}
			n++
			st := fl.At[call]
			handed, how := st.Has("called:release"), "slot handed back before blocking"
			if !handed {
				// the blocking event sits in a helper of its own (runTaskCommand): the hand-back is looked for there
				if fn, isFn := callee(e.fb.Info(), call).(*types.Func); isFn && fn != a.RunTask.Obj {
					if h := c.P.DeclOf(fn); h != nil && h.Body != nil && h != e.fb {
						c.Fn(h)
						hf := NewFlow(c.P, h, a.labelRun(h.Info()))
						hf.Run()
						nIn, okIn := 0, true
						for hc, hl := range hf.Labels {
							if hl == e.label {
								nIn++
								okIn = okIn && hf.At[hc].Has("called:release")
							}
						}
						if nIn > 0 && okIn {
							handed, how = true, "slot handed back before blocking, inside "+fnDisplay(h)
						}
					}
				}
			}
			c.Decide(handed, "slot-states", e.label+"-after-handback@"+fnDisplay(e.fb), call.Pos(), how,
				"the "+e.desc+" blocks while the caller still holds its concurrency slot: with --concurrency N a chain of N waiting tasks deadlocks; must-facts: "+st.String())
		}
		if n == 0 {
			c.Errorf("slot-states: no %s event in %s", e.label, fnDisplay(e.fb))
		}
	}
	dedupWaitSlot(c, a)
	// cmds RunCommand never after a hand-back (path enumeration of the command runner)
	fn := c.P.SSAFunc(a.CmdRunner)
	if fn == nil {
		c.Errorf("slot-states: no SSA for the command runner")
		return
	}
	pe := &PathEnum{Fn: fn, MaxRevisit: revisit(), Event: a.ssaLabel}
	pe.Run()
	c.Paths += len(pe.Paths)
	bad, n := "", 0
	for _, p := range pe.Paths {
		ir := p.EventIndex("runcommand", "call")
		if ir < 0 {
			continue
		}
		n++
		if il := p.EventIndex("release", "call"); il >= 0 && il < ir {
			bad = p.String()
		}
	}
	if n == 0 {
		c.Errorf("slot-states: no path of the command runner runs a command")
	}
	c.Decide(bad == "", "slot-states", "command-under-slot@"+fnDisplay(a.CmdRunner), a.CmdRunner.Decl.Pos(), fmt.Sprintf("no hand-back precedes RunCommand on any of %d paths", n), "a command is executed after the slot was handed back: "+bad)
}

func c07SemCapacity(c *Check, a *Anchors) {
	c.Rule("sem-capacity", "the semaphore is created only under Concurrency > 0 with capacity exactly Executor.Concurrency; acquire sends one token and its closure receives one; release receives one token and its closure sends one; both are no-ops when the semaphore is nil")
	n := 0
	for _, fb := range c.P.BodiesIn(PkgTask) {
		info := fb.Info()
		f := (*Flow)(nil)
		inspectBody(fb.Body, func(nd ast.Node) bool {
			as, ok := nd.(*ast.AssignStmt)
			if !ok || len(as.Lhs) != 1 || !fieldSel(info, as.Lhs[0], PkgTask, "Executor", "concurrencySemaphore") {
				return true
			}
			if isNilLit(info, as.Rhs[0]) {
				return true
			}
			n++
			c.Fn(fb)
			call, isMake := ast.Unparen(as.Rhs[0]).(*ast.CallExpr)
			capOK := isMake && isBuiltin(info, call, "make") && len(call.Args) == 2 && fieldSel(info, call.Args[1], PkgTask, "Executor", "Concurrency")
			if f == nil {
				f = NewFlow(c.P, fb, func(*ast.CallExpr, types.Object) string { return "" })
				f.Run()
			}
			// guarded by Concurrency > 0
			guard := false
			pm := parentMap(fb.Body)
			for p := pm[as]; p != nil; p = pm[p] {
				if ifs, ok := p.(*ast.IfStmt); ok && within(as, ifs.Body) {
					if be, ok := ast.Unparen(ifs.Cond).(*ast.BinaryExpr); ok && be.Op == token.GTR && fieldSel(info, be.X, PkgTask, "Executor", "Concurrency") && constIs(info, be.Y, "0") {
						guard = true
					}
				}
			}
			c.Decide(capOK && guard, "sem-capacity", "create@"+fnDisplay(fb), as.Pos(), "make(chan struct{}, e.Concurrency) under Concurrency > 0",
				fmt.Sprintf("the semaphore is created as `%s` (capacity is Executor.Concurrency: %v, under `Concurrency > 0`: %v): the number of concurrently executing tasks is not the requested limit", exprStr(as.Rhs[0]), capOK, guard))
			return true
		})
	}
	c.Floor("sem-capacity", n, 1)
	shape := func(fb *FuncBody, firstSend bool, what string) {
		c.Fn(fb)
		info := fb.Info()
		own := a.semOps(fb.Body, info, 2)
		rets := a.returnedFuncOps(fb)
		wantOwn, wantRet := "recv", "send"
		if firstSend {
			wantOwn, wantRet = "send", "recv"
		}
		ok := len(own) == 1 && own[0] == wantOwn
		nReal := 0
		for _, r := range rets {
			if len(r) == 0 {
				continue // the no-op function returned when there is no semaphore
			}
			nReal++
			if len(r) != 1 || r[0] != wantRet {
				ok = false
			}
		}
		if nReal == 0 && !a.SlotDirect {
			ok = false
		}
		// nil guard: the first statement returns when the semaphore is nil
		nilGuard := false
		if len(fb.Body.List) > 0 {
			if ifs, isIf := fb.Body.List[0].(*ast.IfStmt); isIf {
				if a.isSemNilTest(info, ifs.Cond, 1) {
					nilGuard = len(returnsOf(ifs.Body)) == 1
				}
				// inverted: `if sem != nil { take; return handBack }; return noop` — every semaphore operation of the function
				// sits in the non-nil branch, which returns
				if be, isBin := ast.Unparen(ifs.Cond).(*ast.BinaryExpr); isBin && be.Op == token.NEQ && ifs.Else == nil &&
					((a.isSem(info, be.X) && isNilLit(info, be.Y)) || (a.isSem(info, be.Y) && isNilLit(info, be.X))) {
					endsInReturn := false
					if k := len(ifs.Body.List); k > 0 {
						_, endsInReturn = ifs.Body.List[k-1].(*ast.ReturnStmt)
					}
					rest := &ast.BlockStmt{List: fb.Body.List[1:]}
					restOps := a.semOps(rest, info, 2)
					restReal := 0
					for _, st := range rest.List {
						if r, isRet := st.(*ast.ReturnStmt); isRet {
							for _, res := range r.Results {
								if ops := a.funcValueOps(info, res); len(ops) > 0 {
									restReal++
								}
							}
						}
					}
					nilGuard = endsInReturn && len(restOps) == 0 && restReal == 0
				}
			}
		}
		c.Decide(ok && nilGuard, "sem-capacity", what+"@"+fnDisplay(fb), fb.Decl.Pos(), "exactly one token each way, no-op without a semaphore",
			fmt.Sprintf("%s does not move exactly one token each way (own operations %v, returned function's operations %v, nil guard first: %v)", what, own, rets, nilGuard))
	}
	shape(a.Acquire, true, "acquire")
	shape(a.Release, false, "release")
}

func c07RecursionGated(c *Check, a *Anchors) {
	c.Rule("recursion-gated", "RunTask counts every call per task with an atomic increment of taskCallCount and returns *TaskCalledTooManyTimesError (204) when the count reaches MaximumTaskCall, in an unconditional top-level statement that precedes the dedup call: every call-graph cycle through RunTask passes this gate")
	rt := a.RunTask
	info := rt.Info()
	var gate *ast.IfStmt
	gateStmt := map[*ast.IfStmt]*ast.IfStmt{}    // gate (possibly in a helper) -> the top-level statement of RunTask that applies it
	inverted := map[*ast.IfStmt]*ast.BlockStmt{} // gate written as `if count < Max { return nil }`: the statements that follow it
	scan := func(list []ast.Stmt) *ast.IfStmt {
		var g *ast.IfStmt
		for _, s := range list {
			ifs, ok := s.(*ast.IfStmt)
			if !ok {
				continue
			}
			hasAdd, hasMax, isInverted := false, false, false
			ast.Inspect(ifs.Cond, func(nd ast.Node) bool {
				switch x := nd.(type) {
				case *ast.CallExpr:
					if isCallCountIncrement(c.P, info, x, 1) {
						hasAdd = true
					}
				case *ast.BinaryExpr:
					if x.Op == token.GEQ || x.Op == token.GTR || x.Op == token.LSS || x.Op == token.LEQ {
						if id, ok := ast.Unparen(x.Y).(*ast.Ident); ok {
							if cst, ok := info.Uses[id].(*types.Const); ok && cst.Name() == "MaximumTaskCall" {
								hasMax = true
								isInverted = x.Op == token.LSS || x.Op == token.LEQ
							}
						}
					}
				}
				return true
			})
			if hasAdd && hasMax {
				g = ifs
				if isInverted {
					// `if count < Max { return nil }` followed by the error: the statements after the if are the gate's error branch
					rest := &ast.BlockStmt{Lbrace: ifs.End(), Rbrace: ifs.End()}
					after := false
					for _, s2 := range list {
						if after {
							rest.List = append(rest.List, s2)
							rest.Rbrace = s2.End()
						}
						if s2 == ast.Stmt(ifs) {
							after = true
						}
					}
					inverted[ifs] = rest
				}
			}
		}
		return g
	}
	gate = scan(rt.Body.List)
	outer := gate
	if gate == nil {
		// the gate extracted into a helper of the package: `if err := e.countCall(t); err != nil { return err }` as a
		// top-level statement of RunTask, where the helper's own top-level statement is the gate and it returns nil otherwise
		for _, st := range rt.Body.List {
			ifs, ok := st.(*ast.IfStmt)
			if !ok || ifs.Init == nil {
				continue
			}
			as, ok := ifs.Init.(*ast.AssignStmt)
			if !ok || len(as.Rhs) != 1 || len(as.Lhs) != 1 {
				continue
			}
			call, ok := ast.Unparen(as.Rhs[0]).(*ast.CallExpr)
			if !ok {
				continue
			}
			fn, ok := callee(info, call).(*types.Func)
			if !ok {
				continue
			}
			h := c.P.DeclOf(fn)
			if h == nil || h.Pkg != rt.Pkg {
				continue
			}
			be, ok := ast.Unparen(ifs.Cond).(*ast.BinaryExpr)
			if !ok || be.Op != token.NEQ || varOf(info, be.X) != varOf(info, as.Lhs[0]) || !isNilLit(info, be.Y) {
				continue
			}
			returnsIt := false
			for _, r := range returnsOf(ifs.Body) {
				if res := errResult(r); res != nil && varOf(info, res) == varOf(info, as.Lhs[0]) {
					returnsIt = true
				}
			}
			if hg := scan(h.Body.List); hg != nil && returnsIt {
				gate, outer = hg, ifs
				c.Fn(h)
			}
		}
	}
	gateStmt[gate] = outer
	name := fnDisplay(rt)
	if gate == nil {
		c.Bad("recursion-gated", "gate@"+name, rt.Decl.Pos(), "RunTask has no top-level `atomic.Add(taskCallCount[...]) >= MaximumTaskCall` gate: cyclic task references recurse without bound")
		return
	}
	found, _ := false, 0
	errBranch := ast.Node(gate.Body)
	if rest, ok := inverted[gate]; ok {
		errBranch = rest
	}
	for _, r := range returnsOf(errBranch) {
		res := errResult(r)
		e := ast.Unparen(res)
		if u, ok := e.(*ast.UnaryExpr); ok {
			e = u.X
		}
		if cl, ok := e.(*ast.CompositeLit); ok {
			if tv, ok := info.Types[cl]; ok && isNamed(tv.Type, PkgErrors, "TaskCalledTooManyTimesError") {
				found = true
			}
		}
	}
	// the gate is unconditional: every conjunct beside the counter test switches it off for some invocation (the pinned tree
	// switched it off in watch mode, where a cyclic dependency then ran until memory was exhausted — defect D37)
	var extra []string
	var conj func(e ast.Expr)
	conj = func(e ast.Expr) {
		e = ast.Unparen(e)
		if be, ok := e.(*ast.BinaryExpr); ok && be.Op == token.LAND {
			conj(be.X)
			conj(be.Y)
			return
		}
		isCount := false
		ast.Inspect(e, func(nd ast.Node) bool {
			if sel, ok := nd.(*ast.SelectorExpr); ok && fieldSel(info, sel, PkgTask, "Executor", "taskCallCount") {
				isCount = true
			}
			if call, ok := nd.(*ast.CallExpr); ok && isCallCountIncrement(c.P, info, call, 1) {
				isCount = true
			}
			return true
		})
		if !isCount {
			extra = append(extra, exprStr(e))
		}
	}
	conj(gate.Cond)
	c.Decide(len(extra) == 0, "recursion-gated", "gate-unconditional@"+name, gate.Pos(), "the gate has no condition beside the counter test", "the call-count gate is additionally conditional on `"+strings.Join(extra, "`, `")+"`: a cycle made of tasks for which that condition is false recurses without bound instead of ending with error 204")
	beforeDedup := a.DedupCall != nil && outer.End() < a.DedupCall.Pos()
	// the gate is a direct statement of RunTask's body (found by scanning rt.Body.List): every path that reaches a later statement passed it
	c.Decide(found && beforeDedup, "recursion-gated", "gate@"+name, gate.Pos(), "top-level gate before the dedup call returning *TaskCalledTooManyTimesError",
		fmt.Sprintf("the call-count gate is not effective (returns *TaskCalledTooManyTimesError: %v, precedes the dedup call: %v)", found, beforeDedup))
}

func c07ReentrantWait(c *Check, a *Anchors) {
	c.Rule("reentrant-wait-guarded", "the blocking wait for a deduplicated execution is reachable from the execute callback of the very same execution (dependency cycle through a run: once / when_changed task); on every waiting path there must be, between the table lookup and the wait, a test on call-derived (ancestor / context) data that lets a task waiting for itself fail instead of hanging")
	d := enumerateDedup(c, a)
	if d == nil {
		return
	}
	n, unguarded := 0, ""
	for _, p := range d.pe.Paths {
		ir := p.EventIndex("recv-record", "recv")
		il := p.EventIndex("lookup", "")
		if ir < 0 || il < 0 {
			continue
		}
		n++
		guarded := false
		for i := il; i < ir; i++ {
			e := p.Events[i]
			if e.Kind != "assume" {
				continue
			}
			l := strings.ToLower(e.Label)
			if strings.Contains(l, "context") || strings.Contains(l, "ancestor") || strings.Contains(l, "cycle") || strings.Contains(l, "param:ctx") {
				guarded = true
			}
		}
		if !guarded {
			unguarded = p.String()
		}
	}
	if n == 0 {
		c.Errorf("reentrant-wait-guarded: no waiting path")
		return
	}
	c.Decide(unguarded == "", "reentrant-wait-guarded", "wait@dedup-function", a.Dedup.Decl.Pos(), "every wait is guarded by an ancestor test",
		"a task that (transitively) depends on itself through a run: once / when_changed task waits for its own execution: the invocation hangs instead of ending with error 204/201 (no test on ancestor data between the lookup and the blocking receive)")
}

func exprStr2(s ast.Stmt) string {
	switch x := s.(type) {
	case *ast.ExprStmt:
		return exprStr(x.X)
	case *ast.AssignStmt:
		if len(x.Rhs) == 1 {
			return exprStr(x.Rhs[0])
		}
	}
	return ""
}

func c07SoleLimiter(c *Check, a *Anchors) {
	c.Rule("sole-limiter", "the concurrency semaphore is the only limiter of the run phase: no errgroup of package task is given a limit (SetLimit / TryGo) — an errgroup limit counts dependency subtrees, not executing tasks, and holds back independent dependencies while slots are free")
	n := 0
	for _, fb := range c.P.BodiesIn(PkgTask) {
		info := fb.Info()
		for _, call := range callsIn(fb, false) {
			obj := callee(info, call)
			if isFunc(obj, "golang.org/x/sync/errgroup", "Group", "SetLimit") || isFunc(obj, "golang.org/x/sync/errgroup", "Group", "TryGo") {
				n++
				c.Bad("sole-limiter", "limit@"+fnDisplay(fb), call.Pos(), "an errgroup limit is installed in the run phase: with -C N, dependencies beyond the first N are not started while the first N wait for a shared task, although slots are free")
			}
		}
	}
	if n == 0 {
		c.OK("sole-limiter", "package task", a.DepRunner.Decl.Pos(), "no errgroup limit in package task")
	}
	// canary: the rule's matcher must recognise the API (expected count on the tree is zero)
	if c.P.Pkgs["golang.org/x/sync/errgroup"] == nil {
		found := false
		for _, pk := range c.P.Roots {
			for path := range pk.Imports {
				if path == "golang.org/x/sync/errgroup" {
					found = true
				}
			}
		}
		if !found {
			c.Errorf("sole-limiter: errgroup is not imported any more; the rule cannot match anything")
		}
	}
}

// isSemNilTest: the condition is `semaphore == nil`, or a call of a predicate of package task whose body is a single return of such a test.
func (a *Anchors) isSemNilTest(info *types.Info, cond ast.Expr, depth int) bool {
	cond = ast.Unparen(cond)
	if be, ok := cond.(*ast.BinaryExpr); ok && be.Op == token.EQL {
		return (a.isSem(info, be.X) && isNilLit(info, be.Y)) || (a.isSem(info, be.Y) && isNilLit(info, be.X))
	}
	call, ok := cond.(*ast.CallExpr)
	if !ok || depth <= 0 {
		return false
	}
	fn, _ := callee(info, call).(*types.Func)
	h := a.P.DeclOf(fn)
	if h == nil || h.Decl == nil || h.Pkg.PkgPath != PkgTask || len(h.Body.List) != 1 {
		return false
	}
	r, ok := h.Body.List[0].(*ast.ReturnStmt)
	return ok && len(r.Results) == 1 && a.isSemNilTest(h.Info(), r.Results[0], depth-1)
}

// isCallCountIncrement: the call atomically increments an element of Executor.taskCallCount — atomic.AddInt32(&/ptr ...), the
// Add method of a sync/atomic integer type, or a helper of package task whose body is a single return of such a call.
func isCallCountIncrement(p *Prog, info *types.Info, call *ast.CallExpr, depth int) bool {
	fn, ok := callee(info, call).(*types.Func)
	if !ok {
		return false
	}
	if fn.Pkg() != nil && fn.Pkg().Path() == "sync/atomic" && strings.HasPrefix(fn.Name(), "Add") {
		found := false
		ast.Inspect(call, func(m ast.Node) bool {
			if sel, ok := m.(*ast.SelectorExpr); ok && fieldSel(info, sel, PkgTask, "Executor", "taskCallCount") {
				found = true
			}
			return true
		})
		return found
	}
	if depth <= 0 {
		return false
	}
	h := p.DeclOf(fn)
	if h == nil || h.Decl == nil || h.Pkg.PkgPath != PkgTask || len(h.Body.List) != 1 {
		return false
	}
	r, ok := h.Body.List[0].(*ast.ReturnStmt)
	if !ok || len(r.Results) != 1 {
		return false
	}
	inner, ok := ast.Unparen(r.Results[0]).(*ast.CallExpr)
	return ok && isCallCountIncrement(p, h.Info(), inner, depth-1)
}

// c07SlotAPIDirect: the two slot functions are only ever CALLED, in place. Handed out as a function value (stored in a field,
// passed as an argument) they can be invoked by code the slot rules do not see — while a mutex is held, say, which inverts the
// order against the callers that take the mutex while holding a slot.
func c07SlotAPIDirect(c *Check, a *Anchors) {
	c.Rule("slot-api-direct-calls", "every reference to the slot acquire / release functions in the module is the callee of a call expression (never a method value stored in a field or handed to another component): all acquisitions are the call sites the pairing, state and lock-order rules judge")
	n := 0
	ord := map[string]int{}
	for _, fb := range c.P.Bodies() {
		if !strings.HasPrefix(fb.Pkg.PkgPath, Mod) {
			continue
		}
		info := fb.Info()
		pm := parentMap(fb.Body)
		inspectBody(fb.Body, func(nd ast.Node) bool {
			id, ok := nd.(*ast.Ident)
			if !ok {
				return true
			}
			obj := info.Uses[id]
			which := ""
			switch {
			case a.Acquire != nil && obj == types.Object(a.Acquire.Obj):
				which = "acquire"
			case a.Release != nil && obj == types.Object(a.Release.Obj):
				which = "release"
			default:
				return true
			}
			n++
			// the identifier is the Sel of a selector (or the bare name) that is the Fun of a call
			var expr ast.Node = id
			if sel, ok := pm[id].(*ast.SelectorExpr); ok && sel.Sel == id {
				expr = sel
			}
			call, isCall := pm[expr].(*ast.CallExpr)
			direct := isCall && ast.Unparen(call.Fun) == expr
			c.Decide(direct, "slot-api-direct-calls", ordinal(ord, which+"@"+fnDisplay(fb.Root())), id.Pos(), "called in place",
				"the slot "+which+" function is used as a value here (stored or passed on) instead of being called: whoever invokes it later takes or gives back a --concurrency slot outside the reviewed call sites — e.g. while holding a mutex that slot holders also take, which deadlocks under -C 1")
			return true
		})
	}
	c.Floor("slot-api-direct-calls", n, 4)
}

// c07NoLockAcrossRun: no mutex of package task is held while a task, a command of a task or a slot acquisition is awaited.
var lockAcrossRunReviewed = map[string]string{}

func c07NoLockAcrossRun(c *Check, a *Anchors) {
	c.Rule("no-lock-across-run", "in package task no call that can wait for another task — RunTask, the dedup function, the command runner, the dependency runner, the slot acquire (directly or through functions of the package) — is made while a sync mutex locked in the same function is still held (Lock without an Unlock before the call; a deferred Unlock holds it to the end). Held across such a call, the mutex serialises independent executions, and with -C 1 the holder waits for a slot that the waiter for the mutex occupies")
	targets := []*FuncBody{a.RunTask, a.Dedup, a.Acquire, a.CmdRunner, a.DepRunner}
	blocking := map[*FuncBody]bool{}
	for _, fb := range c.P.BodiesIn(PkgTask) {
		if fb.Decl == nil {
			continue
		}
		reach := c.P.ReachableFrom([]*FuncBody{fb}, nil)
		for _, t := range targets {
			if t != nil && reach[t] {
				blocking[fb] = true
			}
		}
	}
	n, nLocks := 0, 0
	ord := map[string]int{}
	for _, fb := range c.P.BodiesIn(PkgTask) {
		info := fb.Info()
		muKey := func(call *ast.CallExpr) (string, string) {
			sel, ok := ast.Unparen(call.Fun).(*ast.SelectorExpr)
			if !ok {
				return "", ""
			}
			fn, ok := callee(info, call).(*types.Func)
			if !ok || fn.Pkg() == nil || fn.Pkg().Path() != "sync" {
				return "", ""
			}
			switch fn.Name() {
			case "Lock", "Unlock", "RLock", "RUnlock":
			default:
				return "", ""
			}
			return exprStr(sel.X), fn.Name()
		}
		locks := false
		for _, call := range callsIn(fb, false) {
			if _, op := muKey(call); op == "Lock" || op == "RLock" {
				locks = true
			}
		}
		if !locks {
			continue
		}
		nLocks++
		// may-analysis by region: a Lock holds from its position to the next Unlock of the same mutex in the text, or — when
		// the Unlock is deferred (or missing) — to the end of the function; a branch that excludes the Lock's branch is not in
		// the region
		type region struct {
			key        string
			from, to   token.Pos
			lock       *ast.CallExpr
			deferredUn bool
		}
		var regions []region
		deferred := map[*ast.CallExpr]bool{}
		inspectBody(fb.Body, func(nd ast.Node) bool {
			if d, ok := nd.(*ast.DeferStmt); ok {
				deferred[d.Call] = true
			}
			return true
		})
		calls := callsIn(fb, false)
		for _, call := range calls {
			k, op := muKey(call)
			if op != "Lock" && op != "RLock" || deferred[call] {
				continue
			}
			r := region{key: k, from: call.End(), to: fb.Body.End(), lock: call}
			for _, u := range calls {
				uk, uop := muKey(u)
				if uk != k || (uop != "Unlock" && uop != "RUnlock") || u.Pos() < call.End() {
					continue
				}
				if deferred[u] {
					r.deferredUn = true
					r.to = fb.Body.End()
					break
				}
				if u.Pos() < r.to {
					r.to = u.Pos()
				}
			}
			regions = append(regions, r)
		}
		pm := parentMap(fb.Body)
		excluded := func(lock, call ast.Node) bool {
			// some if statement has the lock in its body and the call in its else (or the reverse)
			for p := pm[lock]; p != nil; p = pm[p] {
				if ifs, ok := p.(*ast.IfStmt); ok && ifs.Else != nil {
					if (within(lock, ifs.Body) && within(call, ifs.Else)) || (within(lock, ifs.Else) && within(call, ifs.Body)) {
						return true
					}
				}
			}
			return false
		}
		for _, call := range calls {
			fn, ok := callee(info, call).(*types.Func)
			if !ok {
				continue
			}
			d := c.P.DeclOf(fn)
			if d == nil || !blocking[d] {
				continue
			}
			var held []string
			for _, r := range regions {
				if call.Pos() > r.from && call.Pos() < r.to && !excluded(r.lock, call) {
					held = append(held, r.key)
				}
			}
			sort.Strings(held)
			n++
			key := ordinal(ord, calleeName(fn)+"@"+fnDisplay(fb.Root()))
			_, reviewed := lockAcrossRunReviewed[key]
			c.Decide(len(held) == 0 || reviewed, "no-lock-across-run", key, call.Pos(), "no mutex of this function is held at the call",
				fmt.Sprintf("%s is called while %s may still be locked (locked earlier in the function, not yet unlocked — a deferred Unlock holds it to the end): the call can wait for another task, for a command or for a --concurrency slot, so every other execution that needs the mutex is serialised behind it (and with -C 1 the two wait for each other)", calleeName(fn), strings.Join(held, ", ")))
		}
	}
	c.Extra["functions_with_locks"] = nLocks
	if n == 0 {
		c.OK("no-lock-across-run", "no-blocking-call-in-locking-function@task", 0, fmt.Sprintf("%d function(s) of package task lock a mutex; none of them calls into the run phase", nLocks))
	}
}
