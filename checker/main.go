package main

import (
	"encoding/json"
	"fmt"
	"os"
	"runtime/debug"
	"sort"
	"strconv"
)

type checkFunc func(c *Check, a *Anchors)

var registry = map[string]checkFunc{}

func register(id string, f checkFunc) { registry[id] = f }

func usage() {
	fmt.Fprintln(os.Stderr, "usage: taskverif check <ID> [--tier quick|thorough] | all [--tier ..] | replay <violation.json> | list")
	os.Exit(2)
}

func main() {
	if len(os.Args) < 2 {
		usage()
	}
	switch os.Args[1] {
	case "list":
		var ids []string
		for id := range registry {
			ids = append(ids, id)
		}
		sort.Strings(ids)
		for _, id := range ids {
			fmt.Println(id)
		}
	case "check":
		if len(os.Args) < 3 {
			usage()
		}
		os.Exit(runChecks([]string{os.Args[2]}, tierArg(os.Args[3:])))
	case "all":
		var ids []string
		for id := range registry {
			ids = append(ids, id)
		}
		sort.Strings(ids)
		os.Exit(runChecks(ids, tierArg(os.Args[2:])))
	case "replay":
		if len(os.Args) < 3 {
			usage()
		}
		os.Exit(replay(os.Args[2]))
	case "bce":
		p, err := Load(repoDir(), "", "")
		if err != nil {
			fmt.Println("ERROR", err)
			os.Exit(2)
		}
		sites, err := runBCE(p)
		if err != nil {
			fmt.Println("ERROR", err)
			os.Exit(2)
		}
		for _, s := range sites {
			fmt.Printf("%s:%d:%d %s inlined=%v fn=%s expr=%s\n", s.File, s.Line, s.Col, s.Kind, s.Inlined, fnDisplay(s.FB), s.Expr)
		}
	case "selftest":
		os.Exit(selftest(os.Args[2:]))
	default:
		usage()
	}
}

func tierArg(args []string) string {
	tier := os.Getenv("VERIF_TIER")
	for i, a := range args {
		if a == "--tier" && i+1 < len(args) {
			tier = args[i+1]
		}
	}
	if tier != "thorough" {
		tier = "quick"
	}
	return tier
}

func runChecks(ids []string, tier string) int {
	for _, id := range ids {
		if registry[id] == nil {
			fmt.Printf("ERROR property=%s no such check\n", id)
			return 2
		}
	}
	p, err := Load(repoDir(), "", "")
	if err != nil {
		for _, id := range ids {
			fmt.Printf("ERROR property=%s cannot analyse %s: %v\n", id, repoDir(), err)
		}
		return 2
	}
	a := ResolveAnchors(p)
	worst := 0
	for _, id := range ids {
		rc := runOne(id, tier, p, a)
		if rc == 1 || (rc == 2 && worst == 0) {
			worst = rc
		}
	}
	return worst
}

func runOne(id, tier string, p *Prog, a *Anchors) (rc int) {
	c := NewCheck(id, tier, p)
	if s := os.Getenv("VERIF_SEED"); s != "" {
		c.Seed, _ = strconv.Atoi(s)
	}
	func() {
		defer func() {
			if r := recover(); r != nil {
				c.Errorf("analyzer panic: %v\n%s", r, debug.Stack())
			}
		}()
		for _, m := range a.Missing {
			c.Errorf("anchor not resolved: %s", m)
		}
		if len(a.Missing) == 0 {
			registry[id](c, a)
			if tier == "thorough" {
				thoroughExtras(c, a)
			}
		}
	}()
	return c.Finish()
}

func replay(path string) int {
	b, err := os.ReadFile(path)
	if err != nil {
		fmt.Println("ERROR", err)
		return 2
	}
	var v struct{ Property, Key, Tier string }
	if err := json.Unmarshal(b, &v); err != nil {
		fmt.Println("ERROR", err)
		return 2
	}
	if registry[v.Property] == nil {
		fmt.Println("ERROR unknown property", v.Property)
		return 2
	}
	p, err := Load(repoDir(), "", "")
	if err != nil {
		fmt.Println("ERROR", err)
		return 2
	}
	a := ResolveAnchors(p)
	c := NewCheck(v.Property, "quick", p)
	if len(a.Missing) > 0 {
		fmt.Println("ERROR anchors not resolved:", a.Missing)
		return 2
	}
	registry[v.Property](c, a)
	for _, o := range c.Obls {
		if o.Key() == v.Key {
			if o.OK {
				fmt.Printf("replay: %s now holds at %s (%s)\n", v.Key, o.Pos, o.Detail)
				return 0
			}
			fmt.Printf("VIOLATION property=%s replay=%s\n  %s %s: %s\n", v.Property, path, o.Pos, o.Key(), o.Detail)
			return 1
		}
	}
	fmt.Printf("replay: obligation %s no longer exists in the current source\n", v.Key)
	return 0
}
